//! E4 — conformance of the execution environment E1 (harness/src/svm.rs) with the real Solana
//! runtime as packaged by solana-program-test: every golden transaction of the instruction registry
//! (one per instruction kind) and one refusal per instruction are executed in both, and the outcomes
//! must agree: same success / same custom error code, and for successes byte-identical data, owner
//! and lamports of every account of the E1 post-state (the program-test fee payer excepted).
//!
//! Phase 1 runs everything on E1 (whose syscall stubs are installed first); phase 2 runs the same
//! transactions under program-test with `marginfi::entry` registered as a native processor and the
//! SPL token programs as program-test ships them.

use solana_program_test::{processor, ProgramTest};
use solana_sdk::account::Account;
use solana_sdk::clock::Clock;
use solana_sdk::instruction::{AccountMeta, Instruction, InstructionError};
use solana_sdk::pubkey::Pubkey;
use solana_sdk::signature::{Keypair, Signer};
use solana_sdk::transaction::{Transaction, TransactionError};
use std::collections::BTreeMap;
use vh::svm::{process_tx, Store, Tx};
use vh::world;

fn native_marginfi_entry(program_id: &Pubkey, accounts: &[solana_sdk::account_info::AccountInfo], data: &[u8]) -> solana_sdk::entrypoint::ProgramResult {
    // anchor wants &'info [AccountInfo<'info>]; program-test hands out unrelated lifetimes
    let accounts: &'static [solana_sdk::account_info::AccountInfo<'static>] = unsafe { std::mem::transmute(accounts) };
    marginfi::entry(program_id, accounts, data)
}

fn noop_entry(_program_id: &Pubkey, _accounts: &[solana_sdk::account_info::AccountInfo], _data: &[u8]) -> solana_sdk::entrypoint::ProgramResult {
    Ok(())
}

/// the "via CPI" proxy: accounts[0] is the program to call, the rest are the inner instruction's
/// accounts with their flags, the data is the inner instruction's data
fn proxy_entry(_program_id: &Pubkey, accounts: &[solana_sdk::account_info::AccountInfo], data: &[u8]) -> solana_sdk::entrypoint::ProgramResult {
    let inner = Instruction { program_id: *accounts[0].key, accounts: accounts[1..].iter().map(|a| AccountMeta { pubkey: *a.key, is_signer: a.is_signer, is_writable: a.is_writable }).collect(), data: data.to_vec() };
    solana_sdk::program::invoke(&inner, accounts)
}

struct Case {
    name: String,
    pre: Store,
    tx: Tx,
    e1_ok: bool,
    e1_code: u32,
    /// the custom error code, if the failure was a custom program error
    e1_custom: Option<u32>,
    /// not a valid Solana transaction although E1 executes it (two compute-budget instructions)
    invalid_on_chain: bool,
    e1_post: Store,
}

fn keypair_of(k: &Pubkey) -> Option<Keypair> {
    let label = world::label_of(k);
    if world::key(&label) != *k {
        return None;
    }
    let secret = ed25519_dalek::SecretKey::from_bytes(&world::seed_of(&label)).ok()?;
    let public = ed25519_dalek::PublicKey::from(&secret);
    let mut bytes = [0u8; 64];
    bytes[..32].copy_from_slice(&secret.to_bytes());
    bytes[32..].copy_from_slice(&public.to_bytes());
    Keypair::from_bytes(&bytes).ok()
}

fn is_builtin(k: &Pubkey) -> bool {
    *k == solana_sdk::system_program::id() || *k == spl_token_id() || *k == spl_token_2022_id() || *k == marginfi::ID || solana_sdk::sysvar::is_sysvar_id(k) || *k == solana_sdk::pubkey!("ATokenGPvbdGVxr1b2hvZbsiqW5xWH25efTNsLJA8knL")
}
fn spl_token_id() -> Pubkey {
    solana_sdk::pubkey!("TokenkegQfeZyiNwAJbNbGKPFXCWuBvf9Ss623VQ5DA")
}
fn spl_token_2022_id() -> Pubkey {
    solana_sdk::pubkey!("TokenzQdBNbLqP5VEhdkAS6EPFLC1PHnBqCXEpPxuEb")
}

async fn run_on_program_test(c: &Case) -> (bool, u32, Vec<String>) {
    let mut pt = ProgramTest::default();
    pt.prefer_bpf(false);
    pt.add_program("marginfi", marginfi::ID, processor!(native_marginfi_entry));
    for k in [marginfi::constants::JUP_KEY, vh::world::key("c10:evil_program"), solana_sdk::pubkey!("KLend2g3cP87fffoy8q1mQqGKjrxjC8boSyAYavgmjD")] {
        pt.add_program("noop", k, processor!(noop_entry));
    }
    for k in [vh::checks::c10::proxy(), vh::checks::c11::proxy()] {
        pt.add_program("proxy", k, processor!(proxy_entry));
    }
    for (k, a) in c.pre.accts.iter() {
        if a.executable || is_builtin(k) {
            continue;
        }
        pt.add_account(*k, Account { lamports: a.lamports, data: a.data.clone(), owner: a.owner, executable: false, rent_epoch: u64::MAX });
    }
    let mut ctx = pt.start_with_context().await;
    let mut clock: Clock = ctx.banks_client.get_sysvar().await.unwrap();
    clock.unix_timestamp = c.pre.now;
    clock.slot = c.pre.slot.max(clock.slot);
    clock.epoch = c.pre.epoch;
    ctx.set_sysvar(&clock);
    let ixs: Vec<Instruction> = c
        .tx
        .ixs
        .iter()
        .map(|i| {
            let metas: Vec<AccountMeta> = i.accounts.iter().map(|m| AccountMeta { pubkey: m.pubkey, is_signer: m.is_signer, is_writable: m.is_writable }).collect();
            match i.proxy {
                None => Instruction { program_id: i.program_id, accounts: metas, data: i.data.clone() },
                Some(p) => {
                    let mut ms = vec![AccountMeta::new_readonly(i.program_id, false)];
                    ms.extend(metas);
                    Instruction { program_id: p, accounts: ms, data: i.data.clone() }
                }
            }
        })
        .collect();
    let mut kps: Vec<Keypair> = vec![];
    for s in &c.tx.signers {
        match keypair_of(s) {
            Some(k) => kps.push(k),
            None => return (false, u32::MAX, vec![format!("no keypair for signer {}", world::label_of(s))]),
        }
    }
    let payer = ctx.payer.insecure_clone();
    let mut signers: Vec<&Keypair> = vec![&payer];
    for k in &kps {
        // a key that is listed as a signer of the transaction but appears in no instruction as signer
        // cannot be part of the message: skip it (E1 treats the signer set as "who may sign")
        if ixs.iter().any(|i| i.accounts.iter().any(|m| m.is_signer && m.pubkey == k.pubkey())) {
            signers.push(k);
        }
    }
    let bh = ctx.get_new_latest_blockhash().await.unwrap();
    let tx = match Transaction::new_signed_with_payer(&ixs, Some(&payer.pubkey()), &signers, bh) {
        t => t,
    };
    let res = ctx.banks_client.process_transaction(tx).await;
    let (ok, code) = match &res {
        Ok(()) => (true, 0u32),
        Err(e) => {
            use solana_program_test::BanksClientError as B;
            let te = match e {
                B::TransactionError(te) => Some(te.clone()),
                B::SimulationError { err, .. } => Some(err.clone()),
                other => {
                    eprintln!("    program-test transport error for {}: {:?}", c.name, other);
                    None
                }
            };
            match te {
                Some(TransactionError::InstructionError(_, InstructionError::Custom(c))) => (false, c),
                Some(other) => (false, {
                    eprintln!("    program-test error for {}: {:?}", c.name, other);
                    u32::MAX - 1
                }),
                None => (false, u32::MAX - 2),
            }
        }
    };
    let mut diffs = vec![];
    if ok && c.e1_ok {
        for (k, a) in c.e1_post.accts.iter() {
            if a.executable || is_builtin(k) {
                continue;
            }
            let got = ctx.banks_client.get_account(*k).await.unwrap();
            match got {
                None => {
                    if a.lamports != 0 {
                        diffs.push(format!("{}: exists in E1 (lamports {}), absent under program-test", world::label_of(k), a.lamports));
                    }
                }
                Some(g) => {
                    if g.owner != a.owner {
                        diffs.push(format!("{}: owner differs", world::label_of(k)));
                    }
                    if g.lamports != a.lamports {
                        diffs.push(format!("{}: lamports {} (E1) vs {} (program-test)", world::label_of(k), a.lamports, g.lamports));
                    }
                    if g.data != a.data {
                        let first = g.data.iter().zip(a.data.iter()).position(|(x, y)| x != y);
                        diffs.push(format!("{}: data differs (len {} vs {}, first differing byte {:?})", world::label_of(k), a.data.len(), g.data.len(), first));
                    }
                }
            }
        }
        // accounts E1 closed must be gone
        for (k, a) in c.pre.accts.iter() {
            if a.executable || is_builtin(k) || c.e1_post.accts.contains_key(k) {
                continue;
            }
            if let Some(g) = ctx.banks_client.get_account(*k).await.unwrap() {
                if g.lamports != 0 {
                    diffs.push(format!("{}: closed in E1 but still has {} lamports under program-test", world::label_of(k), g.lamports));
                }
            }
        }
    }
    (ok, code, diffs)
}

fn main() {
    std::env::set_var("RUST_LOG", "off");
    let family: String = std::env::args().nth(1).unwrap_or_else(|| "all".into());
    let want = |f: &str| family == "all" || family == f;
    let mut cases: Vec<Case> = vec![];
    let mut push = |name: String, pre: &Store, tx: Tx| {
        let mut post = pre.clone();
        let r = process_tx(&mut post, &tx);
        let raw = r.code();
        let e1_custom = if r.ok() { None } else if raw < (1u64 << 32) { Some(raw as u32) } else if raw == (1u64 << 32) { Some(0) } else { None };
        let cb = tx.ixs.iter().filter(|i| i.program_id == marginfi::constants::COMPUTE_PROGRAM_KEY).count();
        cases.push(Case { name, pre: pre.clone(), tx, e1_ok: r.ok(), e1_code: r.custom(), e1_custom, invalid_on_chain: cb > 1, e1_post: post });
    };
    // ---- phase 1: E1
    // (1) one golden call and one refusal per instruction kind
    if want("goldens") {
        let env = vh::golden::build_env();
        for g in &vh::golden::goldens() {
            // the Drift goldens run against the harness's own stand-in for the Drift program (venue.rs), which
            // program-test does not have: they are outside the conformance set (DESIGN, section G)
            if g.name.starts_with("drift_") {
                continue;
            }
            let pre = (g.prep)(&env);
            for (variant, signer) in [("golden", vh::golden::role_key(&env, g.role)), ("refusal(stranger signs)", vh::act::stranger())] {
                if variant != "golden" && matches!(g.role, vh::golden::Role::Anyone) {
                    continue;
                }
                let tx = (g.make)(&env, &pre, signer);
                push(format!("golden: {} / {}", g.name, variant), &pre, tx);
            }
        }
    }
    // (2) a covering set of history transitions: for every world and root of the C01 model and every
    // state one successful step away, the first transition of each (action kind, result code) class
    if want("transitions") {
        use vh::mc::Model;
        for world in ["A", "B", "C", "D"] {
            let h = vh::checks::c01::model(vh::checks::Tier::Quick, world);
            let mut seen: std::collections::BTreeSet<(String, u32)> = Default::default();
            let mut frontier: Vec<(String, vh::hist::HState)> = h.roots.clone();
            for depth in 0..2 {
                let mut next = vec![];
                for (rname, st) in &frontier {
                    for a in h.actions(st) {
                        let Some(tx) = vh::act::tx_for(&h.w, &st.s, &a) else {
                            // environment action: only changes the state
                            if depth == 0 {
                                let mut t = st.clone();
                                vh::act::apply(&h.w, &mut t.s, &a);
                                next.push((format!("{rname}+{:?}", a), t));
                            }
                            continue;
                        };
                        let mut post = st.s.clone();
                        let r = process_tx(&mut post, &tx);
                        let kind = vh::hist::action_kind(&a).to_string();
                        if seen.insert((kind.clone(), r.custom())) {
                            push(format!("transition: world {world} {rname} {:?}", a), &st.s, tx);
                        }
                        if r.ok() && depth == 0 && next.len() < 60 {
                            let mut t = st.clone();
                            t.s = post;
                            next.push((format!("{rname}+{kind}"), t));
                        }
                    }
                }
                frontier = next;
            }
        }
    }
    // (3) receivership shapes: every list of length <= 2, every committed bracket up to length 4 and
    // the first refused list of each error code (instructions sysvar, CPI stack height, allow-lists)
    if want("c10") {
        use vh::checks::c10 as m;
        let sc = m::scene("a", 0.05, [1000.0, 1000.0], [864.0, 864.0]);
        let alpha = m::alphabet(vh::checks::Tier::Quick);
        let liq = sc.w.users[sc.liq].authority;
        let mut codes: std::collections::BTreeSet<String> = Default::default();
        for list in m::shapes(&alpha, 4) {
            let out = m::run_shape(&sc, &list);
            let keep = list.len() <= 2 || (out.committed && out.class.ends_with("took_control")) || codes.insert(out.class.clone());
            if keep {
                let ixs: Vec<vh::svm::Ix> = list.iter().map(|s| m::build_ix(&sc, &sc.s, *s)).collect();
                push(format!("c10 shape: {:?}", list), &sc.s, Tx::new(ixs, &[liq]));
            }
        }
    }
    // (4) flash-loan shapes: every list of length <= 2 in the normal state, committed brackets up to
    // length 3 in every state, first refusal of each code
    if want("c11") {
        use vh::checks::c11 as m;
        for st in [m::St::Normal, m::St::Frozen, m::St::Unhealthy, m::St::Bankrupt] {
            let sc = m::scene(st);
            let alpha = m::alphabet(3);
            let signers = [sc.w.users[0].authority, sc.w.users[1].authority, sc.w.roles.risk];
            let mut codes: std::collections::BTreeSet<String> = Default::default();
            for list in m::shapes(&alpha, 3) {
                let out = m::run_shape(&sc, st, &list);
                let keep = (st == m::St::Normal && list.len() <= 2) || out.class.contains("with_bracket") || codes.insert(out.class.clone());
                if keep {
                    let ixs: Vec<vh::svm::Ix> = list.iter().map(|s| m::build_ix(&sc, *s)).collect();
                    push(format!("c11 shape: {:?} {:?}", st, list), &sc.s, Tx::new(ixs, &signers));
                }
            }
        }
    }
    eprintln!("phase 1 (E1): {} transactions", cases.len());
    // ---- phase 2: program-test
    let rt = tokio::runtime::Builder::new_current_thread().enable_all().build().unwrap();
    let mut agree = 0;
    let mut disagree: Vec<String> = vec![];
    let mut rows: Vec<serde_json::Value> = vec![];
    let mut per_family: BTreeMap<String, (u64, u64)> = BTreeMap::new();
    let mut skipped_invalid = 0u64;
    for (n, c) in cases.iter().enumerate() {
        if c.invalid_on_chain {
            // the real runtime refuses the whole transaction (duplicate compute-budget instruction);
            // E1 is more permissive here, which can only add behaviours to the explored space
            skipped_invalid += 1;
            continue;
        }
        let (ok, code, diffs) = rt.block_on(run_on_program_test(c));
        let same_verdict = ok == c.e1_ok
            && (ok
                || match c.e1_custom {
                    Some(cc) => cc == code,
                    // a built-in (non-custom) error in E1: program-test must also report a non-custom error
                    None => code >= u32::MAX - 2,
                });
        let same = same_verdict && diffs.is_empty();
        let fam = c.name.split(':').next().unwrap().to_string();
        let e = per_family.entry(fam).or_insert((0, 0));
        e.0 += 1;
        if same {
            agree += 1;
            e.1 += 1;
        } else {
            disagree.push(format!("{}: E1 ok={} code={} | program-test ok={} code={} | {}", c.name, c.e1_ok, c.e1_code, ok, code, diffs.join("; ")));
            eprintln!("  DISAGREE {}", disagree.last().unwrap());
        }
        rows.push(serde_json::json!({"transaction": c.name, "e1": {"ok": c.e1_ok, "code": c.e1_code}, "program_test": {"ok": ok, "code": code}, "account_differences": diffs, "agree": same}));
        if n % 50 == 49 {
            eprintln!("  ... {} / {} replayed, {} agree", n + 1, cases.len(), agree);
        }
    }
    let fam_json: BTreeMap<String, serde_json::Value> = per_family.iter().map(|(k, v)| (k.clone(), serde_json::json!({"transactions": v.0, "agree": v.1}))).collect();
    let out = serde_json::json!({"what": "every transaction below was executed by the harness environment E1 and by solana-program-test 2.1.20 (marginfi::entry as a native processor, SPL token programs as shipped with program-test) from the same account set and clock; agreement = same success / same custom error code and, for successes, byte-identical data, owner and lamports of every account", "transactions": cases.len() as u64 - skipped_invalid, "not_valid_on_chain_skipped": skipped_invalid, "agree": agree, "families": fam_json, "disagree": disagree, "rows": rows});
    std::fs::create_dir_all("/verif/evidence").ok();
    let file = if family == "all" { "/verif/evidence/E4-conformance.json".to_string() } else { format!("/verif/evidence/E4-conformance-{family}.json") };
    std::fs::write(&file, serde_json::to_string_pretty(&out).unwrap()).unwrap();
    println!("E4 conformance ({family}): {} of {} transactions agree ({} more are not valid Solana transactions and were skipped); families {:?}", agree, cases.len() as u64 - skipped_invalid, skipped_invalid, per_family);
    std::process::exit(if disagree.is_empty() { 0 } else { 2 });
}
