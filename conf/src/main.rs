//! E4 — conformance of the execution environment E1 (harness/src/svm.rs) with the real Solana
//! runtime as packaged by solana-program-test: every golden transaction of the instruction registry
//! (one per instruction kind) and one refusal per instruction are executed in both, and the outcomes
//! must agree: same success / same custom error code, and for successes byte-identical data, owner
//! and lamports of every account of the E1 post-state (the program-test fee payer excepted).
//!
//! Phase 1 runs everything on E1 (whose syscall stubs are installed first); phase 2 runs the same
//! transactions under program-test with `marginfi::entry` registered as a native processor and the
//! SPL token programs as program-test ships them.

use solana_program_test::{processor, ProgramTest};
use solana_sdk::account::Account;
use solana_sdk::clock::Clock;
use solana_sdk::instruction::{AccountMeta, Instruction, InstructionError};
use solana_sdk::pubkey::Pubkey;
use solana_sdk::signature::{Keypair, Signer};
use solana_sdk::transaction::{Transaction, TransactionError};
use std::collections::BTreeMap;
use vh::svm::{process_tx, Store, Tx};
use vh::world;

fn native_marginfi_entry(program_id: &Pubkey, accounts: &[solana_sdk::account_info::AccountInfo], data: &[u8]) -> solana_sdk::entrypoint::ProgramResult {
    // anchor wants &'info [AccountInfo<'info>]; program-test hands out unrelated lifetimes
    let accounts: &'static [solana_sdk::account_info::AccountInfo<'static>] = unsafe { std::mem::transmute(accounts) };
    marginfi::entry(program_id, accounts, data)
}

struct Case {
    name: String,
    pre: Store,
    tx: Tx,
    e1_ok: bool,
    e1_code: u32,
    e1_post: Store,
}

fn keypair_of(k: &Pubkey) -> Option<Keypair> {
    let label = world::label_of(k);
    if world::key(&label) != *k {
        return None;
    }
    let secret = ed25519_dalek::SecretKey::from_bytes(&world::seed_of(&label)).ok()?;
    let public = ed25519_dalek::PublicKey::from(&secret);
    let mut bytes = [0u8; 64];
    bytes[..32].copy_from_slice(&secret.to_bytes());
    bytes[32..].copy_from_slice(&public.to_bytes());
    Keypair::from_bytes(&bytes).ok()
}

fn is_builtin(k: &Pubkey) -> bool {
    *k == solana_sdk::system_program::id() || *k == spl_token_id() || *k == spl_token_2022_id() || *k == marginfi::ID || solana_sdk::sysvar::is_sysvar_id(k) || *k == solana_sdk::pubkey!("ATokenGPvbdGVxr1b2hvZbsiqW5xWH25efTNsLJA8knL")
}
fn spl_token_id() -> Pubkey {
    solana_sdk::pubkey!("TokenkegQfeZyiNwAJbNbGKPFXCWuBvf9Ss623VQ5DA")
}
fn spl_token_2022_id() -> Pubkey {
    solana_sdk::pubkey!("TokenzQdBNbLqP5VEhdkAS6EPFLC1PHnBqCXEpPxuEb")
}

async fn run_on_program_test(c: &Case) -> (bool, u32, Vec<String>) {
    let mut pt = ProgramTest::default();
    pt.prefer_bpf(false);
    pt.add_program("marginfi", marginfi::ID, processor!(native_marginfi_entry));
    for (k, a) in c.pre.accts.iter() {
        if a.executable || is_builtin(k) {
            continue;
        }
        pt.add_account(*k, Account { lamports: a.lamports, data: a.data.clone(), owner: a.owner, executable: false, rent_epoch: u64::MAX });
    }
    let mut ctx = pt.start_with_context().await;
    let mut clock: Clock = ctx.banks_client.get_sysvar().await.unwrap();
    clock.unix_timestamp = c.pre.now;
    clock.slot = c.pre.slot.max(clock.slot);
    clock.epoch = c.pre.epoch;
    ctx.set_sysvar(&clock);
    let ixs: Vec<Instruction> = c.tx.ixs.iter().map(|i| Instruction { program_id: i.program_id, accounts: i.accounts.iter().map(|m| AccountMeta { pubkey: m.pubkey, is_signer: m.is_signer, is_writable: m.is_writable }).collect(), data: i.data.clone() }).collect();
    let mut kps: Vec<Keypair> = vec![];
    for s in &c.tx.signers {
        match keypair_of(s) {
            Some(k) => kps.push(k),
            None => return (false, u32::MAX, vec![format!("no keypair for signer {}", world::label_of(s))]),
        }
    }
    let payer = ctx.payer.insecure_clone();
    let mut signers: Vec<&Keypair> = vec![&payer];
    for k in &kps {
        // a key that is listed as a signer of the transaction but appears in no instruction as signer
        // cannot be part of the message: skip it (E1 treats the signer set as "who may sign")
        if ixs.iter().any(|i| i.accounts.iter().any(|m| m.is_signer && m.pubkey == k.pubkey())) {
            signers.push(k);
        }
    }
    let bh = ctx.get_new_latest_blockhash().await.unwrap();
    let tx = match Transaction::new_signed_with_payer(&ixs, Some(&payer.pubkey()), &signers, bh) {
        t => t,
    };
    let res = ctx.banks_client.process_transaction(tx).await;
    let (ok, code) = match &res {
        Ok(()) => (true, 0u32),
        Err(e) => match e.unwrap() {
            TransactionError::InstructionError(_, InstructionError::Custom(c)) => (false, c),
            other => (false, {
                eprintln!("    program-test error for {}: {:?}", c.name, other);
                u32::MAX - 1
            }),
        },
    };
    let mut diffs = vec![];
    if ok && c.e1_ok {
        for (k, a) in c.e1_post.accts.iter() {
            if a.executable || is_builtin(k) {
                continue;
            }
            let got = ctx.banks_client.get_account(*k).await.unwrap();
            match got {
                None => {
                    if a.lamports != 0 {
                        diffs.push(format!("{}: exists in E1 (lamports {}), absent under program-test", world::label_of(k), a.lamports));
                    }
                }
                Some(g) => {
                    if g.owner != a.owner {
                        diffs.push(format!("{}: owner differs", world::label_of(k)));
                    }
                    if g.lamports != a.lamports {
                        diffs.push(format!("{}: lamports {} (E1) vs {} (program-test)", world::label_of(k), a.lamports, g.lamports));
                    }
                    if g.data != a.data {
                        let first = g.data.iter().zip(a.data.iter()).position(|(x, y)| x != y);
                        diffs.push(format!("{}: data differs (len {} vs {}, first differing byte {:?})", world::label_of(k), a.data.len(), g.data.len(), first));
                    }
                }
            }
        }
        // accounts E1 closed must be gone
        for (k, a) in c.pre.accts.iter() {
            if a.executable || is_builtin(k) || c.e1_post.accts.contains_key(k) {
                continue;
            }
            if let Some(g) = ctx.banks_client.get_account(*k).await.unwrap() {
                if g.lamports != 0 {
                    diffs.push(format!("{}: closed in E1 but still has {} lamports under program-test", world::label_of(k), g.lamports));
                }
            }
        }
    }
    (ok, code, diffs)
}

fn main() {
    let only: Option<String> = std::env::args().nth(1);
    // ---- phase 1: E1
    let env = vh::golden::build_env();
    let goldens = vh::golden::goldens();
    let mut cases: Vec<Case> = vec![];
    for g in &goldens {
        if let Some(o) = &only {
            if !g.name.contains(o.as_str()) {
                continue;
            }
        }
        let pre = (g.prep)(&env);
        for (variant, signer) in [("golden", vh::golden::role_key(&env, g.role)), ("refusal(stranger signs)", vh::act::stranger())] {
            if variant != "golden" && matches!(g.role, vh::golden::Role::Anyone) {
                continue;
            }
            let tx = (g.make)(&env, &pre, signer);
            if tx.ixs.iter().any(|i| i.proxy.is_some()) {
                continue;
            }
            let mut post = pre.clone();
            let r = process_tx(&mut post, &tx);
            cases.push(Case { name: format!("{} / {}", g.name, variant), pre: pre.clone(), tx, e1_ok: r.ok(), e1_code: r.custom(), e1_post: post });
        }
    }
    eprintln!("phase 1 (E1): {} transactions", cases.len());
    // ---- phase 2: program-test
    let rt = tokio::runtime::Builder::new_current_thread().enable_all().build().unwrap();
    let mut agree = 0;
    let mut disagree: Vec<String> = vec![];
    let mut rows: Vec<serde_json::Value> = vec![];
    for c in &cases {
        let (ok, code, diffs) = rt.block_on(run_on_program_test(c));
        let same_verdict = ok == c.e1_ok && (ok || code == c.e1_code);
        let same = same_verdict && diffs.is_empty();
        if same {
            agree += 1;
        } else {
            disagree.push(format!("{}: E1 ok={} code={} | program-test ok={} code={} | {}", c.name, c.e1_ok, c.e1_code, ok, code, diffs.join("; ")));
        }
        rows.push(serde_json::json!({"transaction": c.name, "e1": {"ok": c.e1_ok, "code": c.e1_code}, "program_test": {"ok": ok, "code": code}, "account_differences": diffs, "agree": same}));
        eprintln!("  {} {}", if same { "AGREE   " } else { "DISAGREE" }, c.name);
    }
    let out = serde_json::json!({"transactions": cases.len(), "agree": agree, "disagree": disagree, "rows": rows});
    std::fs::create_dir_all("/verif/evidence").ok();
    std::fs::write("/verif/evidence/E4-conformance.json", serde_json::to_string_pretty(&out).unwrap()).unwrap();
    println!("E4 conformance: {} of {} transactions agree", agree, cases.len());
    for d in &disagree {
        println!("  DISAGREE {}", d);
    }
    let _ = BTreeMap::<u8, u8>::new();
    std::process::exit(if disagree.is_empty() { 0 } else { 2 });
}
