#!/bin/bash
# usage: tools/scratch_matrix.sh seeds|mutants [tier] [seed-id regex] [tag]
# With a regex only the matching seeds are run and their rows are merged into seeded/RESULTS.tsv (several
# invocations with different tags may run side by side, each on its own scratch pair).
# Runs a detection matrix against a scratch pair (git worktree of /repo at HEAD + a copy of /verif whose harness
# points at that worktree), so that /repo itself stays untouched and usable meanwhile. Results are copied back
# to /verif/{seeded,mutants}/RESULTS.tsv; the scratch pair is removed afterwards.
set -u
WHAT=${1:-seeds}; TIER=${2:-quick}; FILTER=${3:-.}; TAG=${4:-0}
MX=/root/scratch/mx-$WHAT-$TAG
rm -rf $MX/verif; git -C /repo worktree remove --force $MX/repo 2>/dev/null; mkdir -p $MX
git -C /repo worktree add --detach $MX/repo HEAD >/dev/null 2>&1 || { echo "cannot create worktree"; exit 2; }
rsync -a --exclude conf/target --exclude .git --exclude 'evidence/replays' /verif/ $MX/verif/
sed -i "s#\"/repo/#\"$MX/repo/#g" $MX/verif/harness/Cargo.toml
export VERIF_REPO=$MX/repo VERIF_HOME=$MX/verif CARGO_NET_OFFLINE=true
if [ "$WHAT" = seeds ]; then
  SEED_FILTER="$FILTER" RESULTS_OUT=$MX/results.tsv $MX/verif/seeded/matrix.sh $TIER
  python3 /verif/tools/merge_results.py $MX/results.tsv /verif/seeded/RESULTS.tsv
else
  $MX/verif/mutants/matrix.sh; cp $MX/verif/mutants/RESULTS.tsv /verif/mutants/RESULTS.tsv
fi
git -C /repo worktree remove --force $MX/repo; rm -rf $MX
