#!/usr/bin/env python3
"""Regenerates /verif/MANIFEST.json from the table below (one entry per claimed property)."""
import json, os
ROOT = os.path.dirname(os.path.dirname(os.path.abspath(__file__)))
props = [json.loads(l) for l in open(os.path.join(ROOT, 'properties.jsonl'))]

TRUST = ("E1 (svm-lite: loader-format marshalling, syscall stubs, CPI into the native SPL-Token/Token-2022 processors and a small system program) "
         "stands in for the Solana runtime; the program itself is the real marginfi::entry compiled from /repo's working tree (release, overflow-checks on); "
         "BPF code generation, compute/heap limits and venue CPIs are out of scope")

CHECKS = {
 "C01": dict(cat="model_checking", technique="explicit-state BFS over action sequences through the real entrypoint; exact-rational invariant on every transition",
   text="Every action sequence up to depth 3 (quick) / 4 (thorough) over the deposit/withdraw/borrow/repay/liquidate/bankruptcy/accrue/collect alphabet with state-relative amounts, from 6 roots in 2-4 token worlds, is executed through marginfi::entry; after each committed transaction vault-(deposits-liabilities+fees) is recomputed exactly from raw bytes and may not fall by more than a derived sub-unit allowance.",
   ref="6 C01"),
 "C02": dict(cat="model_checking", technique="explicit-state BFS over action sequences through the real entrypoint; bit-exact share-sum oracle on every transition",
   text="Same search with transfer-account, close-balance, close-account, bankruptcy and close-bank in the alphabet; on every transition delta(bank totals) must equal the sum of position deltas bit-exactly, except for counted sub-0.0001 dust on slot deactivation.",
   ref="6 C02"),

 "C03": dict(cat="model_checking", technique="explicit-state BFS over user operation sequences through the real entrypoint with an exact wealth oracle; plus a depth-1 sweep from forged-share-value roots",
   text="Every sequence (depth 4 quick / 6 thorough) of deposit, withdraw, withdraw-all, borrow, repay, repay-all, close-balance by a user on two banks at constant share values and prices, and every single operation from roots with share values 1, 1+ulp, 4/3, 0.37, 255.9 across 0/6/9/18-decimal and transfer-fee mints with amounts around share-value multiples, is executed; on each committed step tokens received plus exact position-value change may not exceed a few ulps.",
   ref="6 C03"),
 "C04": dict(cat="exploration", technique="complete configuration product; per configuration bisection of the amount through the real instruction to the accept/reject boundary, window and grid execution, two-sided exact-rational reference health",
   text="Every combination of collateral weight, price/EMA ratio, confidence (incl. the 5% cap and the 10% maximum), collateral state (normal, reduce-only, isolated, stale oracle, collateral-value cap), second collateral, liability weight/confidence, five e-mode variants and action (borrow, withdraw), plus 16-position portfolios: the amount is bisected through the real instruction, boundary+-8 and a 32-point grid are executed; acceptances must have reference initial health >= -allowance on their real post-state, the boundary rejection must have reference health <= +allowance one unit further, accept sets must be monotone, and unusable collateral must leave the boundary where it is without the position.",
   ref="6 C04"),
 "C05": dict(cat="exploration", technique="complete configuration product with the liquidatee's health steered by bisecting the oracle price on the reference; seize amount bisected through the real instruction; exact-rational oracle for eligibility, improvement and the 95/97.5/2.5 split",
   text="All combinations of mint decimals/token programs, five liquidatee health levels (one oracle tick above/below zero, -10%, x3, negative only after confidence bias), five liquidator portfolios, four maintenance weight pairs and collateral confidence: seize amounts 1,2,3, over-liquidation boundary+-2, collateral+-1, fractions and an oversize amount are executed; each success is judged against the exact reference.",
   ref="6 C05"),
 "C06": dict(cat="model_checking", technique="explicit-state BFS with a differential oracle (handler vs explicit-accrue-then-handler) through the real entrypoint; product sweep of the accrue instruction with exact conservation oracle",
   text="(b) For every state reached by sequences up to depth 3 (quick) / 4 (thorough) incl. clock advances, every handler step on a bank with pending interest is re-executed after an explicit accrual of the banks it transacts in; outcome and end state must coincide. (a) 10k+ accrue instructions over curves x fees x totals x utilisations x share values x elapsed times must keep share values monotone, fees non-negative / zero when disabled, be idempotent, and conserve value within a derived allowance.",
   ref="6 C06"),
 "C07": dict(cat="exploration", technique="complete product over the bad-debt/insurance/deposit threshold lattice x depositor distributions x signers x mints through the real handle_bankruptcy instruction, exact-rational effect oracle; BFS over the admin alphabet from killed banks",
   text="For every combination of bank archetype (SPL, Token-2022 with two fee settings, plain Token-2022), depositor distribution, insurance balance, bad debt at/around every threshold (with fractional parts), liability share value and signer/permissionless combination, plus the eligibility / target-bank / account-flag sub-product, the real instruction decides; every acceptance is judged for real bad debt, entitlement, insurance-first cover, exact pro-rata socialisation, non-negative share value, the kill rule, account disabling and debt clearance; from killed banks a 14-action admin alphabet is searched to depth 2/3 and the bank must stay killed.",
   ref="6 C07"),
 "C08": dict(cat="exploration", technique="complete matrix enumeration through the real entrypoint: every instruction x signer identity x account state, and every instruction x account slot x substitute (incl. cooperating bank-bundle substitutions), judged by a role table and a reference consistency relation",
   text="For 55 instructions a golden call is asserted to succeed; then every cell of instruction x 12 signer identities, every cell of balance-changing instruction x {frozen, receivership, flash-loan, disabled} x signers, and every cell of instruction x account slot x substitute (foreign group's accounts, other banks' vaults/authorities/oracles, wrong-kind vaults, identical-bytes look-alikes at another address, wrong owner program, wrong discriminator, wrong program, a foreign bank together with all its vaults) is executed; cells outside the statement's role table, and substitutions that make the instruction's accounts inconsistent, must be refused (or provably ignored: bit-identical outcome).",
   ref="6 C08"),
 "C09": dict(cat="exploration", technique="complete product enumeration of oracle data and of oracle-failure conditions through the real risk engine and the real instructions (pulse_health, borrow, withdraw, liquidate, handle_bankruptcy), judged against an exact independent reference valuation and the statement's one-sided rules",
   text="(A) ~4500 cells: {asset side, debt side} x max-confidence {default, 2 %, 5 %, 100 %} x Pyth prices 1..9e15 x exponents -12..0 (thorough -18..1) x confidence {0, 1e-5, 1 %, either side of 5 %/2.12 and 10 %/2.12, 9 %, 100 %} x EMA {x1, x0.5, x2}, and Switchboard values 1e-9..1e6 x std-dev incl. either side of 5 %/1.96 and 10 %/1.96: the program's initial, maintenance and equity valuations and three verdicts (read from the health cache) equal the reference; collateral <= reported price, debt >= reported price, band <= 5 %. (B) {Pyth/Pyth, Switchboard/Switchboard, fixed/Pyth, Pyth/fixed, staked/Pyth} x {collateral, debt} oracle x 17 conditions (age at / one second over the limit, wrong owner, wrong discriminator, partial verification, confidence just under / over the maximum, zero / zero-with-confidence / negative price, zero EMA, identical impostor at another address, staked mint / pool impostors, zero LST supply, fixed zero) x {healthy, liquidatable, bankrupt} portfolios: pulse plus real borrow / withdraw / liquidate / bankruptcy; an acceptance requires a usable reference valuation of the kind that decision needs, and no liquidation is sized by a non-positive price.",
   ref="6 C09"),
 "C10": dict(cat="model_checking", technique="exhaustive enumeration of transaction shapes (instruction lists up to a length bound over a 19-symbol alphabet) executed atomically through the real entrypoint with a real instructions sysvar and CPI stack heights; committed transactions judged by a reference bracket language and exact reference health / equity valuations; amount grids with boundary-directed values inside well-formed brackets",
   text="(a) All 2.6 million instruction lists of length <= 5 (quick; <= 6 thorough) over {compute budget, record init, whitelisted refresh, start / end for two unhealthy accounts, withdraw / repay for both (small, oversized), deposit, allowed / not-allowed / malformed foreign program, start / end / withdraw via CPI} are executed as transactions signed by a third party only: a commit never leaves a receivership / deleverage / flash-loan marker or a recorded receiver anywhere, and whenever an account's balances changed the list is a well-formed bracket for that account (single start first after whitelisted instructions, matching end last, only withdraw / repay in between, nothing via CPI), the account was unhealthy, its health is no worse and not positive, and the premium cap holds unless its assets were under $5. (b) [start, repay(y), withdraw(x), end] on an amount grid with values one cent either side of the premium, not-worse and not-positive boundaries x 5 portfolios x maximum-fee settings. (c) Zero-weight and zero-price collateral never leaves in a committed bracket.",
   ref="6 C10"),
 "C11": dict(cat="model_checking", technique="exhaustive enumeration of transaction shapes (instruction lists up to a length bound over a 21-symbol alphabet incl. every end-index argument) x 7 account states, executed atomically through the real entrypoint with a real instructions sysvar and CPI stack heights; every committed transaction judged by the bracket rules and the exact reference initial health",
   text="All 1.5 million (quick: length <= 4; thorough: <= 5) instruction lists over {start_flashloan with end index 0..max, end for the account (two risk-account layouts), end for another account of the same authority, that end mentioning the account among its remaining accounts, start / end via CPI, borrow / withdraw within and beyond borrowing power, repay-all, deposit, foreign no-op, liquidate / bankruptcy / start-liquidation of the account} x {normal, frozen, disabled, in receivership, already flagged, liquidatable, bankrupt} are executed as transactions: a commit leaves no account flagged in-flash-loan; each executed start names a later top-level end of this program for the same account, is not nested, not on a frozen / disabled / in-receivership account, and nothing ran via CPI; no liquidation, bankruptcy or receivership start executed while the account was flagged; and after any borrow or withdrawal the account's reference initial health is non-negative.",
   ref="6 C11"),
 "C12": dict(cat="exploration", technique="complete matrix enumeration through the real entrypoint: delegated-admin instruction x argument menu (all single-bit, all defined-subset and all-ones flag words) x bank flag presets x frozen/unfrozen, byte-level frame diff against per-role field masks; BFS over admin sequences from frozen banks; bounded-exhaustive deleverage sequences against a reference daily window",
   text="(a) Every case of interest-only / limits-only (full product) / e-mode configure and clone / setup and update emissions with 194 flag words / metadata / force-complete / group-admin configure, oracle and fixed-price calls x {bank with, without emissions} x {unfrozen, frozen} x flag presets is executed; the byte diff of every account must stay inside the signer role's field mask, and on a frozen bank weights, oracle, curve, tier, init limit and state must stay and the freeze bit must survive; (b) every admin sequence up to depth 2 (quick) / 3 (thorough) from a frozen bank keeps FREEZE_SETTINGS; (c) every sequence up to depth 3 / 4 of risk-admin deleverage transactions x 4..7 withdrawal values around whole dollars and the limit x clock advances {0, 86399, 86400, 86401} x limits {none, 1, 100}: tumbling-window whole-dollar sum <= limit, health not worse, flags cleared.",
   ref="6 C12"),
 "C13": dict(cat="model_checking", technique="explicit-state BFS over admin configuration histories through the real entrypoint (every configuration write path, weights bracketing each boundary by one ULP); exact rational invariant on every accepted post-state, killed-state rule, and init=>maintenance implication read from the program's own risk engine on boundary portfolios",
   text="From three roots (fresh group with a forged staked bank; a bank carrying an e-mode entry valid only against its own liability weights; a bank killed by bankruptcy) every admin sequence up to depth 2 (quick, full alphabet, ~10^6 transactions) / 3 (thorough) of configure_bank (weight pairs, single weights, tier, age, state incl. killed), configure_bank_emode, clone_emode, group leverage caps, add_bank_with_seed, edit/propagate staked settings and limits-only is executed; every accepted post-state is checked with exact rationals against the statement's inequalities for each bank whose configuration changed (e-mode leverage against that bank's liability weights and the group's caps whenever entries or liability weights were written), the killed state may neither be entered nor left, and after each depth-1 acceptance boundary portfolios (largest debt that passes the program's init check) must pass its maintenance check.",
   ref="6 C13"),
 "C14": dict(cat="exploration", technique="complete matrix enumeration through the real entrypoint: financial instruction x bank role x operational state, and every instruction x pause situation x timing around the exact expiry second, judged by the statement's table and an observational no-movement rule",
   text="(A) every financial golden call (deposit, withdraw, withdraw-all, borrow, repay, repay-all, liquidation with asset/debt bank separately, bankruptcy, Token-2022 deposit) x each involved bank x {Paused, ReduceOnly, KilledByBankruptcy} is executed and compared with the statement's refuse / still-works table, plus the reduce-only valuation pair (no new borrowing, still counted against liquidation); (B) each of 55 instructions is executed 1 s and 1799 s into a propagated protocol pause (a success must not move any position or vault balance of the group) and at 1800 s / 1801 s with and without re-propagation (verdict must equal the never-paused twin).",
   ref="6 C14"),
 "C15": dict(cat="model_checking", technique="explicit-state search to the fixpoint of the pause machine driven through the real instructions, time-abstract state key, region grid plus bounded off-grid deviations",
   text="All reachable states of the emergency-pause machine (pause / admin unpause / permissionless unpause / propagate / time ticks on the 600 s region grid plus <=1 (quick) or <=2 (thorough) one-second deviations) are explored to the fixpoint through marginfi::entry; every pause edge and every state is checked against the 30-minute push, 60-minute horizon, three-per-window and 24-hour reset bounds, and a user deposit probe shows blocking ends without anyone acting.",
   ref="6 C15"),
 "C16": dict(cat="model_checking", technique="explicit-state BFS over position-opening/closing sequences through the real entrypoint across banks of every asset tag and tier; structural invariant oracle on every changed account; slot-exhaustion and component sweeps",
   text="Every unpruned action sequence up to depth 3 (quick) / 4 (thorough) of deposits, withdrawals, borrows, repayments, close-balance, liquidations in every bank combination, transfers and account closes over default / SOL / staked (forged StakedWithPythPush) / isolated banks; after each committed transaction every changed account must have distinct banks, one side per bank, a sorted active prefix, compatible tags, bounded counts and stable tags; closes, disabled accounts and transfers are judged on pre/post states; plus a 17-bank slot-exhaustion run and a 0..16 x 0..9 x 6-tag sweep of the position-opening routine.",
   ref="6 C16"),
 "C17": dict(cat="model_checking", technique="explicit-state BFS through the real entrypoint from roots whose limits sit at boundary offsets from the current totals; exact post-state cap/utilisation oracle and an up-to-limit deposit probe in every state",
   text="From states with accruing banks whose deposit/borrow limits were set (via the real limits-only instruction) to floor(total)+{-1,0,1,2,...} and {0,1,2,u64::MAX-1,u64::MAX}, and from a highly utilised bank, every sequence up to depth 2 (quick) / 3 (thorough) incl. a 1 s / 1 y clock advance is executed; after each committed step totals are compared exactly with the limits and each other; an up-to-limit deposit probe must never fail for capacity.",
   ref="6 C17"),
 "C18": dict(cat="exploration", technique="bounded-exhaustive enumeration of interest-curve configurations (complete product over a small menu + shape-directed larger menus) against the real validator and rate calculator",
   text="Every 5-point configuration over the small menu (any padding placement) and every strictly-increasing-utilisation shape over a larger menu, x zero/hundred rates, plus a legacy-curve menu, is given to the real validate(); every accepted curve is evaluated at all breakpoints, +-1/2 ulp, segment interior points, 0, 1 and beyond, under 3 fee vectors, and must be defined, bounded, exact at its points and monotone.",
   ref="6 C18"),
 "C19": dict(cat="exploration", technique="complete product enumeration of fee-bucket / liquidity states through the real collect instruction, authorisation matrices for every vault draw-down and reward payout, and bounded-exhaustive sequences of reward-bearing operations with an exact reference accrual",
   text="(A) 6^3 bucket values x 7 liquidity levels x {SPL bank, Token-2022 bank with a 1 % transfer fee} through collect_bank_fees: each bucket falls by a whole number not above its whole part, the liquidity vault pays exactly that, each destination (insurance vault, fee vault, the global fee wallet's canonical token account) receives its own bucket's amount net of the mint's fee, every whole part is paid when liquidity suffices. (B) withdraw_fees / withdraw_insurance / withdraw_fees_permissionless x 12 signers x {fixed destination, another token account}. (C) every sequence up to depth 4 (quick) / 5 of deposits, withdrawals, withdraw-all, settle and claim by two accounts with at most two clock advances {30 d, 1 y} x budgets {ample, nearly exhausted, zero rate, high rate}: rewards credited to the acting position = elapsed x size before the instruction x rate / year, capped by the remaining budget, which falls by exactly that and never below zero. (D) reward withdrawal {signed, permissionless} x 12 signers x {normal, in receivership, frozen, disabled} x {configured destination, someone else's reward token account}.",
   ref="6 C19"),
 "C20": dict(cat="exploration", technique="complete products over boundary-directed input menus of the venue conversion functions, compared with exact rational arithmetic; composite price adjustment through the real oracle adapter",
   text="All combinations of supplies, decimals, amounts, prices and rates from boundary-directed menus are pushed through the Kamino/Solend/Drift conversion and price-adjustment functions (and the real OraclePriceFeedAdapter for the adjusted price); results must never exceed the exact rational value, round trips never gain, errors only on overflow / zero divisor, staleness exactly 'refreshed before now'.",
   ref="6 C20"),
}

checks = []
for p in props:
    pid = p["id"]
    if pid not in CHECKS:
        continue
    c = CHECKS[pid]
    checks.append({
        "property_id": pid,
        "quick_cmd": f"./check {pid} --tier quick",
        "thorough_cmd": f"./check {pid} --tier thorough",
        "evidence_file": f"/verif/evidence/{pid}.json",
        "replay_cmd_template": f"./check {pid} --replay {{path}}",
        "engine": "harness",
        "level_claimed": {"category": c["cat"], "text": c["text"], "design_ref": "DESIGN.md section " + c["ref"]},
        "level_note": c.get("note", TRUST),
        "technique": c["technique"],
    })

na = [{"property_id": p["id"], "reason": "check not built yet (planned procedure in DESIGN.md section 6); not claimed until it exists"} for p in props if p["id"] not in CHECKS]

m = {
 "version": 1,
 "setup_cmd": "./setup.sh",
 "hooks": {
   "guard": "--cfg mrgnlabs_marginfi_v2_verif",
   "enable": "no hooks exist: the harness links /repo/programs/marginfi as a path dependency and drives the public marginfi::entry, so nothing in /repo is compiled differently for the checks",
   "baseline_off_cmd": "cd /repo && cargo test --workspace --no-fail-fast --offline",
   "source_commits": [],
   "add_only": True,
 },
 "engines": [
   {"name": "harness", "path": "/verif/harness", "serves_properties": [c["property_id"] for c in checks],
    "kind_free_text": "Rust crate (toolchain 1.79, repo lockfile): E1 svm-lite execution environment for marginfi::entry, E2 hand-written explicit-state explorer (BFS, canonical-state dedup), E3 exact reference arithmetic, per-property procedures, evidence writer"},
   {"name": "conf", "path": "/verif/conf", "serves_properties": [c["property_id"] for c in checks],
    "kind_free_text": "E4 conformance replay (`./conformance.sh`): a covering set of transactions (every instruction kind's golden call and a refusal, one history transition per (action kind, result code) in four token worlds, every receivership / flash-loan transaction shape up to length 2 plus all committed brackets and one refusal per code, incl. CPI through a proxy program) is executed by E1 and by solana-program-test 2.1.20 with marginfi::entry as a native processor; outcomes and post-state account bytes must agree; result in evidence/E4-conformance.json"},
 ],
 "checks": checks,
 "notes": "All checks run `./check <ID>`, which rebuilds the harness (and with it the program from /repo's working tree) before exploring. Exit 0 = held / only known findings; 1 = VIOLATION; 2 = machinery failure (never a verdict). `./conformance.sh` (about 12 minutes) validates the execution environment against solana-program-test; it is not a property check.",
 "not_applicable": na,
}
json.dump(m, open(os.path.join(ROOT, 'MANIFEST.json'), 'w'), indent=1)
print("claimed:", [c["property_id"] for c in checks])
