#!/usr/bin/env python3
"""Automatic mutation campaign against the quick checks (a test of the checks' detection power, never a verdict).

  tools/mutcampaign.py list                      -> prints the candidate mutants (id, file:line, operator, before -> after)
  tools/mutcampaign.py run <tag> <i> <n> [max]   -> worker i of n: on its own scratch pair /root/scratch/mc-<tag>
                                                    (git worktree of /repo HEAD + copy of /verif pointing at it) applies one
                                                    mutant at a time, rebuilds, runs the quick checks of the properties whose
                                                    anchors name the mutated file (stops at the first that reports a violation),
                                                    and for survivors runs the repository's own suite. Appends to
                                                    /verif/mutants/auto/RESULTS.tsv.

Mutants are single-site edits of the files named in the properties' anchors (test modules, comments and log lines skipped).
The candidate list is shuffled with a fixed seed so that a partial campaign is spread over all files and operators.
"""
import json, os, re, sys, subprocess, random, hashlib, time, fcntl, collections

REPO = '/repo'
OUT = '/verif/mutants/auto'

SWAPS = [
    (r' >= ', ' > '), (r' > ', ' >= '), (r' <= ', ' < '), (r' < ', ' <= '), (r' == ', ' != '), (r' != ', ' == '),
    (r' && ', ' || '), (r' \|\| ', ' && '),
    (r'checked_add', 'checked_sub'), (r'checked_sub', 'checked_add'), (r'checked_mul', 'checked_div'), (r'checked_div', 'checked_mul'),
    (r'\.min\(', '.max('), (r'\.max\(', '.min('), (r'\bmin\(', 'max('), (r'\bmax\(', 'min('),
    (r'checked_ceil', 'checked_floor'), (r'checked_floor', 'checked_ceil'), (r'\.ceil\(\)', '.floor()'), (r'\.floor\(\)', '.ceil()'),
    (r'PriceBias::Low', 'PriceBias::High'), (r'PriceBias::High', 'PriceBias::Low'),
    (r'RequirementType::Initial', 'RequirementType::Maintenance'), (r'RequirementType::Maintenance', 'RequirementType::Initial'),
    (r'RequirementType::Equity', 'RequirementType::Maintenance'),
    (r'OraclePriceType::RealTime', 'OraclePriceType::TimeWeighted'), (r'OraclePriceType::TimeWeighted', 'OraclePriceType::RealTime'),
    (r'BalanceSide::Assets', 'BalanceSide::Liabilities'), (r'BalanceSide::Liabilities', 'BalanceSide::Assets'),
    (r'\basset_share_value\b', 'liability_share_value'), (r'\bliability_share_value\b', 'asset_share_value'),
    (r'\btotal_asset_shares\b', 'total_liability_shares'), (r'\btotal_liability_shares\b', 'total_asset_shares'),
    (r'\bget_asset_amount\b', 'get_asset_shares'), (r'\bget_liability_amount\b', 'get_liability_shares'),
    (r'\bget_asset_shares\b', 'get_asset_amount'), (r'\bget_liability_shares\b', 'get_liability_amount'),
    (r'\bdeposit_limit\b', 'borrow_limit'), (r'\bborrow_limit\b', 'deposit_limit'),
    (r'\basset_weight_init\b', 'asset_weight_maint'), (r'\basset_weight_maint\b', 'asset_weight_init'),
    (r'\bliability_weight_init\b', 'liability_weight_maint'), (r'\bliability_weight_maint\b', 'liability_weight_init'),
    (r'\basset_shares\b', 'liability_shares'), (r'\bliability_shares\b', 'asset_shares'),
    (r'if !', 'if '), (r'\(!', '('), (r'&& !', '&& '),
    (r'\bInstructionKind::FailsIfPausedOrReduceState\b', 'InstructionKind::FailsInPausedState'),
    (r'\bInstructionKind::FailsInPausedState\b', 'InstructionKind::FailsIfPausedOrReduceState'),
    (r'\bis_some\(\)', 'is_none()'), (r'\bis_none\(\)', 'is_some()'),
    (r'I80F48::ZERO', 'I80F48::ONE'), (r'I80F48::ONE', 'I80F48::ZERO'),
    (r'\+ 1\b', '+ 0'), (r'- 1\b', '- 0'),
]


def anchors():
    m = collections.defaultdict(list)
    for l in open('/verif/properties.jsonl'):
        d = json.loads(l)
        for f in d['anchors']['files']:
            if os.path.exists(f'{REPO}/{f}') and f.endswith('.rs') and not f.endswith('lib.rs'):
                m[f].append(d['id'])
    return m


def code_lines(path):
    """yields (index, line) of lines that are program code (not tests, comments, logging)"""
    lines = open(path).read().split('\n')
    in_log = 0
    for i, l in enumerate(lines):
        s = l.strip()
        if s.startswith('#[cfg(test)]'):
            break
        if in_log:
            in_log += l.count('(') - l.count(')')
            if in_log <= 0: in_log = 0
            continue
        if s.startswith('//') or s.startswith('///') or s.startswith('#[') and 'account(' not in s:
            continue
        if re.match(r'(msg|debug|emit|emit_cpi)!\(', s):
            bal = l.count('(') - l.count(')')
            in_log = bal if bal > 0 else 0
            continue
        if s.startswith('use ') or s.startswith('pub use '):
            continue
        yield i, l
    return


def candidates():
    out = []
    for f, props in sorted(anchors().items()):
        path = f'{REPO}/{f}'
        lines = open(path).read().split('\n')
        cl = list(code_lines(path))
        for i, l in cl:
            code = l.split('//')[0]
            for pat, rep in SWAPS:
                for mt in re.finditer(pat, code):
                    if pat.strip() in ('>', '<', r'>=', r'<=') and ('->' in code[max(0, mt.start() - 1):mt.end() + 1] or '=>' in code[max(0, mt.start() - 1):mt.end() + 1]):
                        continue
                    new = code[:mt.start()] + rep + code[mt.end():] + l[len(code):]
                    out.append(dict(file=f, line=i, op=f'{pat.strip()} -> {rep.strip()}', kind='swap', new=[new], span=1, props=props))
            s = l.strip()
            # statement deletion: a call statement ending in ?; on one line (not a let / return)
            if re.match(r'^[A-Za-z_][A-Za-z0-9_:\.]*(\(|\.)[^=]*\)\?;$', s) and not s.startswith('return') and not s.startswith('let '):
                out.append(dict(file=f, line=i, op='delete statement', kind='del', new=[], span=1, props=props))
            # multi-line macro deletion: check!( ... ); / require...!( ... );
            if re.match(r'^(check|check_eq|require|require_keys_eq|require_keys_neq|require_gte|require_gt|assert_struct_size)!\(', s) and not s.startswith('assert_struct'):
                bal = 0; j = i
                while j < len(lines):
                    bal += lines[j].count('(') - lines[j].count(')')
                    if bal <= 0: break
                    j += 1
                if j < len(lines) and lines[j].strip().endswith(';'):
                    out.append(dict(file=f, line=i, op='delete check', kind='del', new=[], span=j - i + 1, props=props))
            # anchor constraint deletion
            if re.match(r'^has_one = [a-z_0-9]+( @ [A-Za-z:]+)?,?$', s):
                out.append(dict(file=f, line=i, op='delete has_one', kind='del', new=[], span=1, props=props))
            if re.match(r'^(seeds|address) = ', s) and False:
                pass
    for c in out:
        h = hashlib.sha1(f"{c['file']}:{c['line']}:{c['op']}:{''.join(c['new'])}".encode()).hexdigest()[:10]
        c['id'] = h
        c['before'] = open(f"{REPO}/{c['file']}").read().split('\n')[c['line']].strip()[:100]
    # dedup
    seen = set(); res = []
    for c in out:
        if c['id'] in seen: continue
        seen.add(c['id']); res.append(c)
    random.Random(20260924).shuffle(res)
    return res


def sh(cmd, cwd=None, timeout=1800, env=None):
    try:
        p = subprocess.run(cmd, shell=True, cwd=cwd, capture_output=True, text=True, timeout=timeout, env=env)
        return p.returncode, p.stdout + p.stderr
    except subprocess.TimeoutExpired as e:
        return 124, 'TIMEOUT'


def record(row):
    os.makedirs(OUT, exist_ok=True)
    with open(f'{OUT}/RESULTS.tsv.lock', 'w') as lk:
        fcntl.flock(lk, fcntl.LOCK_EX)
        new = not os.path.exists(f'{OUT}/RESULTS.tsv')
        with open(f'{OUT}/RESULTS.tsv', 'a') as f:
            if new: f.write('id\tfile\tline\top\tbefore\tresult\tdetail\n')
            f.write('\t'.join(str(x) for x in row) + '\n')


def done_ids():
    try:
        return {l.split('\t')[0] for l in open(f'{OUT}/RESULTS.tsv')}
    except FileNotFoundError:
        return set()


def run(tag, i, n, maxn):
    MX = f'/root/scratch/mc-{tag}'
    sh(f'git -C /repo worktree remove --force {MX}/repo; rm -rf {MX}; mkdir -p {MX}')
    rc, o = sh(f'git -C /repo worktree add --detach {MX}/repo HEAD')
    assert rc == 0, o
    sh(f"rsync -a --exclude conf/target --exclude .git --exclude evidence/replays /verif/ {MX}/verif/")
    sh(f"sed -i 's#\"/repo/#\"{MX}/repo/#g' {MX}/verif/harness/Cargo.toml")
    sh(f'cp -a /repo/target {MX}/repo/target')
    env = dict(os.environ, CARGO_NET_OFFLINE='true', VERIF_REPO=f'{MX}/repo', VERIF_HOME=f'{MX}/verif')
    global REPO
    REPO = f'{MX}/repo'   # the worker's own worktree (the shared /repo may be carrying a patch under test)
    cands = candidates()
    mine = [c for k, c in enumerate(cands) if k % n == i]
    cnt = 0
    for c in mine:
        if cnt >= maxn: break
        if c['id'] in done_ids(): continue
        if os.path.exists('/root/scratch/mc-STOP'): break
        cnt += 1
        path = f"{MX}/repo/{c['file']}"
        sh(f'git -C {MX}/repo checkout -- .')
        lines = open(path).read().split('\n')
        lines[c['line']:c['line'] + c['span']] = c['new']
        open(path, 'w').write('\n'.join(lines))
        t0 = time.time()
        rc, o = sh('cargo build --release 2>&1 | tail -30', cwd=f'{MX}/verif/harness', env=env, timeout=1200)
        if 'error' in o and ('could not compile' in o or 'aborting due to' in o):
            record([c['id'], c['file'], c['line'] + 1, c['op'], c['before'], 'nocompile', '']); continue
        result, detail = 'survived', ''
        for p in c['props']:
            rc, o = sh(f'{MX}/verif/check {p} --tier quick', cwd=f'{MX}/verif', env=env, timeout=900)
            if rc == 1 and 'VIOLATION' in o:
                cl = re.search(r'clause=(\S+)', o)
                result, detail = 'killed', f"{p}:{cl.group(1) if cl else '?'}"; break
            if rc != 0:
                result, detail = 'machinery', f"{p}:rc={rc}:" + (re.findall(r'MACHINERY[^\n]*', o) or [''])[0][:120]
                # keep going: another property's check may still report a violation
        if result in ('survived', 'machinery'):
            # not reported by the checks of the properties anchored in this file: try every other claimed check
            others = [f'C{k:02d}' for k in range(1, 21) if f'C{k:02d}' not in c['props']]
            for p in others:
                rc, o = sh(f'{MX}/verif/check {p} --tier quick', cwd=f'{MX}/verif', env=env, timeout=900)
                if rc == 1 and 'VIOLATION' in o:
                    cl = re.search(r'clause=(\S+)', o)
                    result, detail = 'killed-other', f"{p}:{cl.group(1) if cl else '?'}"; break
        if result in ('survived', 'machinery'):
            rc, o = sh('cargo test --workspace --no-fail-fast --offline -j 6 2>&1 | grep -E "^test result|FAILED|failed" | head -20', cwd=f'{MX}/repo', env=env, timeout=1800)
            failed = sum(int(x) for x in re.findall(r'(\d+) failed', o))
            if failed or 'could not compile' in o:
                result = 'killed-by-repo-tests' if result == 'survived' else 'machinery+repo-tests-fail'
        record([c['id'], c['file'], c['line'] + 1, c['op'], c['before'], result, detail + f' ({int(time.time() - t0)}s)'])
    sh(f'git -C /repo worktree remove --force {MX}/repo; rm -rf {MX}')


if __name__ == '__main__':
    if sys.argv[1] == 'list':
        cs = candidates()
        for c in cs: print(c['id'], f"{c['file']}:{c['line'] + 1}", c['op'], '|', c['before'], '|', ' '.join(c['props']))
        print(len(cs), 'candidates', file=sys.stderr)
    elif sys.argv[1] == 'run':
        run(sys.argv[2], int(sys.argv[3]), int(sys.argv[4]), int(sys.argv[5]) if len(sys.argv) > 5 else 10 ** 9)
