#!/bin/bash
# usage: tools/confirm_seed.sh <agent-worktree> <seed-id> [round]
# Confirms one seeded change delivered by a sub-agent in <agent-worktree>/out/<seed-id> and, if everything holds,
# keeps it as /verif/seeded/<seed-id>/ (patch.diff, demo/, meta.json, confirm/, round). Confirmation happens in a
# fresh scratch worktree of /repo under /root/scratch (removed afterwards):
#   1. patch.diff applies to clean HEAD;  2. the repository's suite passes with it (cargo test --workspace);
#   3. demo/run.sh exits non-zero on the patched tree;  4. demo/run.sh exits 0 on the original tree.
set -u
SRC="$1/out/$2"; ID="$2"; ROUND="${3:-4}"
W=/root/scratch/confirm-$ID
[ -f "$SRC/patch.diff" ] && [ -x "$SRC/demo/run.sh" ] && [ -f "$SRC/meta.json" ] || { echo "$ID: incomplete delivery"; exit 2; }
git -C /repo worktree remove --force $W 2>/dev/null; rm -rf $W
git -C /repo worktree add --detach $W HEAD >/dev/null 2>&1 || { echo "cannot create worktree"; exit 2; }
cp -a /repo/target $W/target 2>/dev/null
C=$W.confirm; rm -rf $C; mkdir -p $C
fail() { echo "$ID: NOT CONFIRMED: $1"; git -C /repo worktree remove --force $W; rm -rf $W $C; exit 1; }
cd $W
# 4. demo passes on the original tree
"$SRC/demo/run.sh" $W > $C/confirm_demo_original.txt 2>&1; rc=$?
[ $rc -eq 0 ] || { tail -20 $C/confirm_demo_original.txt; cp -r $C /root/scratch/failed-$ID; fail "demo does not pass on the original tree (rc=$rc)"; }
[ -z "$(git status --porcelain | grep -v '^?? target/')" ] || { git status --short | head; fail "demo left the original tree dirty"; }
# 1. patch applies
git apply "$SRC/patch.diff" || fail "patch does not apply"
# only program sources may be touched, no tests
if git diff --name-only | grep -Eq '(^|/)tests?/|_test\.rs$'; then fail "patch touches tests"; fi
# 2. suite green: the 172 tests of the baseline (170 library tests, 2 regression tests; the other integration tests
#    need BPF artefacts and fail on the original tree as well)
CARGO_NET_OFFLINE=true cargo test --workspace --no-fail-fast --offline --lib -j 8 > $C/confirm_suite.txt 2>&1; rc=$?
CARGO_NET_OFFLINE=true cargo test --workspace --offline --test tests -j 8 misc::regression >> $C/confirm_suite.txt 2>&1; rc2=$?
passed=$(grep -E "^test result: " $C/confirm_suite.txt | awk '{s+=$4} END{print s+0}')
failed=$(grep -E "^test result: " $C/confirm_suite.txt | awk '{s+=$6} END{print s+0}')
echo "suite: passed=$passed failed=$failed rc=$rc/$rc2" >> $C/confirm_suite.txt
{ [ $rc -eq 0 ] && [ $rc2 -eq 0 ] && [ "$failed" = 0 ] && [ "$passed" -ge 172 ]; } || fail "suite not green with the patch (passed=$passed failed=$failed rc=$rc/$rc2)"
# 3. demo fails on the patched tree
"$SRC/demo/run.sh" $W > $C/confirm_demo_patched.txt 2>&1; rc=$?
[ $rc -ne 0 ] || fail "demo passes on the patched tree"
grep -Eq "error(\[E[0-9]+\])?: (could not compile|aborting)|error: could not compile" $C/confirm_demo_patched.txt && { tail -20 $C/confirm_demo_patched.txt; fail "demo does not compile on the patched tree"; }
# keep
D=/verif/seeded/$ID; rm -rf $D; mkdir -p $D
cp "$SRC/patch.diff" "$SRC/meta.json" $D/; cp -r "$SRC/demo" $D/demo; echo "round $ROUND" > $D/round
mkdir -p $D/confirm; for f in $C/*.txt; do tail -c 20000 $f > $D/confirm/$(basename $f); done
echo "$ID: CONFIRMED (suite passed=$passed; demo fails with the patch, passes without)"
git -C /repo worktree remove --force $W; rm -rf $W $C
