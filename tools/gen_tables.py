#!/usr/bin/env python3
"""Regenerates the tables of DESIGN.md (between BEGIN/END markers) from evidence/*.json,
seeded/*/meta.json + seeded/RESULTS.tsv and mutants/RESULTS.tsv."""
import json, os, re, glob, csv

ROOT = '/verif'

# what a seeded change needed before it was caught (empty = caught by the check as it stood)
NEEDED = {
 'C01-3': 'root R7: the risk admin is itself a borrower',
 'C02-2': 'token-less roots RT/RTC + purge in the alphabet',
 'C02-3': 'root RTD (empty-but-active lender on a completed bank) + purge, close-bank',
 'C03-2': 'token-less roots in the C03 stale model',
 'C03-3': 'stale-bank model: positions valued at really-accrued share values',
 'C04-1': 'second debt bank without e-mode table, both key orders',
 'C04-2': 'staked collateral with pool rate 1.08 + reference staked oracle',
 'C04-3': 'capped collateral bank at share value 1.25',
 'C05-1': 'EMA away from spot variants',
 'C05-2': 'collateral share value 0.8 + amounts around the share count',
 'C07-2': 'debt bank stale for 30 d / 1 y, reference from accrued pre-state',
 'C07-3': 'strict kill rule at the exact threshold',
 'C08-1': 'role-rotation matrix',
 'C08-2': 'staked-collateral golden, stake-pool / thin-mint impostors, zero-data differential',
 'C08-3': 'PDA-transfer golden (+ foreign group with foreign signer cells)',
 'C10-3': 'worthless-collateral sweep in C10; receivership seizure op in C09',
 'C16-2': 'group admin re-tags a bank (alphabet)',
 'C16-3': 'second transfer probed with the PDA flavour too',
 'C18-3': 'write-path sweep through the curve-writing instructions',
 'C19-2': '(harness bug: reward budget forged before the settle that consumed it)',
 'C20-3': 'venue staleness sweep for all six venue setups',
 # round 2
 'C01-4': 'adversarial vault swaps (look-alike token accounts offered in place of each vault) in the C01 alphabet and C08 substitutes',
 'C02-5': 'PDA-flavoured transfer as a history action (C02 + C16)',
 'C03-5': 'root RE: a scheduled Token-2022 fee change with leader_schedule_epoch = epoch + 1 (as on a real cluster)',
 'C04-6': 'reference for venue-backed (Kamino/Solend/Drift) oracles; venue sweep in C09; venue-held collateral states in C04',
 'C05-4': 'look-alike insurance vault offered to liquidate (C08 substitutes; then as a probe per liquidatable configuration in C05)',
 'C06-4': 'cooperating foreign group whose fee settings differ (C08), so that the wrong group is observable',
 'C07-4': 'reduce-only collateral in the bankruptcy sweep',
 'C07-5': 'Token-2022 insurance mint whose maximum_fee caps the fee (large covers)',
 'C07-6': 'look-alike liquidity vault offered to handle_bankruptcy (C08 substitutes, C01 vault swaps)',
 'C08-4': 'empty start/end bracket golden + post-commit marker monitor',
 'C12-5': 'purge matrix over {no flag, ALLOWED only, ALLOWED+COMPLETE}',
 'C12-6': 'withdraw-all inside a deleverage bracket against the daily limit',
 'C13-5': '(caught by the sibling check C08: cooperating foreign-group cell)',
 # round 3
 'C01-9': 'roots tolerate construction failures: the changed program panicked while a root was being built (machinery exit 2 before); the remaining roots are explored and the violation found there is the verdict',
 'C03-7': 'close-balance judged by the no-free-value oracle (dust bound 0.0001) in all three C03 models',
 'C03-9': 'root RZ: the transfer fee is abolished at the next epoch (caught by C01; the user gains nothing, the vault loses)',
 'C05-8': 'liquidatee with two debt banks whose e-mode tables disagree, in both address orders',
 'C05-9': 'banks untouched for 180 days under heavy borrowing: eligibility judged at the share values the liquidation brings up to date',
 'C07-7': 'remaining collateral in a bank whose initial-margin value cap is exceeded thousands of times',
 'C12-7': "both groups' staked settings name the same feed and differ in content; the zero-data differential now also runs for existing foreign accounts accepted with the golden outcome (C08)",
 'C12-8': 'the role key named in its slot without signing: a cell per golden call in C08 and a variant of every role request in C12',
 'C10-7': '(caught by the sibling checks C08 and C12: the deleverage bracket leaves the marker)',
 'C10-8': 'reduce-only collateral portfolio in the amount grid (C07 caught it as it stood)',
 'C02-8': 'forged root RK: a bank wiped out by bankruptcy (deposit share value 0, killed) that still has a borrower',
 'C06-7': 'the price-cache crank in the alphabet + the rule that a bank whose interest clock moved carries the accrued share values',
 'C06-9': '(same change as C06-4; caught by the sibling check C08)',
 'C13-9': 'roots with frozen bank settings (the frozen configure path re-implements the rules); C12 caught it as it stood',
 'C14-7': 'e-mode pair in the reduce-only valuation test (C04 caught it as it stood)',
 'C15-8': 'the user probe is a battery (deposit, withdraw, close-balance of an empty position); C14 caught it as it stood',
 'C16-8': 'forged root F4 (a disabled account with positions) and the rule that the account a disabled source is moved to is disabled too',
 'C19-8': "the reference keeps its own ledger of when a position was last touched; rewards switched off / on in the sequences; a budget variant that starts switched off",
 # round 4
 'C01-10': 'world G: world A in a group whose program fees the global fee admin switched off (C01 and C06)',
 'C02-10': 'forged root R3w: a bankruptcy one step away that wipes the bank out (debt of one and a half times all deposits)',
 'C02-12': 'forged root RMS: a migrated-away shell that picked up a deposit (as a liquidator can); closing it is one step away',
 'C03-10': 'fraction-directed roots: deposits and debts re-forged to end in a chosen fraction of a native unit (just above a whole number, either side of the 0.0001 dust threshold, one half, just below the next whole number)',
 'C03-11': 'root REM (rewards switched on for both sides, ten days of unclaimed rewards pending) in C03 and C02; a refused withdraw-all is re-sent with its bank still among the risk accounts',
 'C03-12': 'vault-side clause: what leaves the liquidity vault on a withdraw / borrow is at most the position debit',
 'C04-10': 'isolated-tier matrix: owing bank X, borrow from bank Y for every ordered pair of three isolated-tier and three ordinary banks (isolated address above / below)',
 'C04-11': 'e-mode variant with the collateral tag requested twice, non-adjacent, in the first debt bank (falls back to the de-duplicated table when refused); second debt bank without a table',
 'C05-12': 'liquidator portfolio: its deposit in the debt bank backs a debt in a third bank, borrowed to the limit after the price steering',
 'C07-10': 'bankruptcy cases with the asset bank\'s oracle stale (the debt bank\'s fresh)',
 'C07-11': 'bankruptcy cases with the entitled key named in the signer slot but not signing',
 'C07-12': 'bankruptcy cases where the account owes a second bank as well',
 'C08-10': 'golden call of collect_bank_fees after the global fee wallet was rotated (group cache stale); the previous wallet\'s token account as a substitute (C19 caught it as it stood)',
 'C08-11': 'C10: debt bank flagged for token-less repayment in the bracket grid (incl. a sub-$5 account, where a full repayment may commit) and the rule that a bank\'s vault takes in what the debt fell by',
 'C09-10': 'decision-matrix scenes with a configured maximum oracle age of 30 s (below the program\'s 60 s default for Pyth)',
 'C09-12': 'venue sweep: the configured reserve / market replaced by an account of the same venue program with the same bytes at another address',
 'C10-12': 'healthy account, third party presents an unreadable collateral oracle (another bank\'s, or a stale one) at the start of the bracket',
 'C11-10': 'side enumeration with end indices 2^8 / 2^16 / 2^32 + k, far outside the transaction but aliasing a position inside it',
 'C12-10': 'frozen bank that is already on a fixed oracle price',
 'C12-12': 'a day passes before every frame-matrix case, so that an interest clock moved without accrual shows in the byte diff',
 'C19-10': 'fee collection on a group with program fees switched off, offered an outsider\'s token account',
 'C19-11': 'second setup_emissions with another mint once the first budget is used up while positions are still owed rewards',
 'C14-12': 'bracket bodies (repay / withdraw inside a liquidation or deleverage bracket) in the bank-state matrix',
 'C15-12': 'clause: a successful propagation makes the group\'s copy of the pause state equal to the global one',
 'C19-12': 'permissionless payout for an account whose authority never chose a destination, into the all-zero wallet\'s token account',
 'C16-12': 'emptiness tightened: an account may be closed only if no active position holds anything at all (C02 caught it as it stood)',
 # round 5
 'C04-14': 'collateral state with a configured maximum oracle age of 30 s and a 45 s old price (C09 caught it as it stood)',
 'C20-7': 'reserve-composition sweep: total liquidity = available + borrowed - fees with fees above the borrowed amount, fractional parts, through the real Kamino / Solend total-liquidity functions and conversions',
 'C08-7': '(caught by the sibling check C10: two start instructions in one transaction)',
 'C08-8': "C12 'nobody' cells: the permissionless staked-settings propagation aimed at ordinary banks",
 'C19-4': 'fee wallet rotated by the global fee admin, group cache stale / propagated',
 'C19-5': 'two-step draw-down: re-point the fee destination (12 signers x own / foreign group slot), then withdraw permissionlessly (C08 caught it as it stood)',
 'C19-6': 'funding sweep with Token-2022 reward mints that charge a transfer fee',
 'C14-4': 'extended pause scenario (pause, extend, propagate; probes up to the extended expiry)',
 # round 5 (session 5)
 'C03-13': 'debt-free fraction-directed roots: a user that owes nothing and may take out its whole deposit, whose value ends just below a whole unit',
 'C03-14': '(caught by the sibling check C17: up-to-limit probe at and either side of the room under the limit; what the position is credited is at most what the user paid)',
 'C03-15': 'inflow clause: a position is credited at most what arrived in the liquidity vault (the transfer fee hides a one-unit shortfall from the wealth oracle)',
 'C05-13': 'collateral bank with a collateral-value cap far below its deposits',
 'C05-14': 'third collateral leg with a stale oracle: an acceptance although maintenance health cannot be established is a violation',
 'C06-13': "a third party's receivership bracket as a history action; position counters {0, 1, 7} in the accrual sweep",
 'C06-14': 'accrual sweep: interest due is applied whatever the position counters say',
 'C07-14': 'debt bank switched to reduce-only before the loss is settled, around the wipe-out threshold',
 'C08-13': '(caught by the sibling check C19)',
 'C08-14': '(caught by the sibling check C12)',
 'C08-15': 'C12: the risk admin may mark a wind-down complete only on a bank opened for token-less repayment',
 'C09-15': 'Switchboard flavours of the venue-backed oracle setups in the value sweep and the condition matrix',
 'C10-13': 'healthy accounts (standard and under $5) in the bracket grid',
 'C11-13': 'band enumeration: borrows and withdrawals either side of the initial and of the maintenance requirement inside brackets',
 'C12-15': 'the bracket grid driven by the risk admin as a forced deleverage (partial amounts and close-outs)',
 'C13-15': "e-mode entries naming the bank's own tag (valid, inverted, over-leveraged)",
 'C14-13': 'a killed bank (settings frozen or not, wind-down flags or not) under every one- and two-step operational-state request of the group admin',
 'C14-14': 'bank flag flavours in the state matrix (token-less wind-down allowed / completed, frozen, permissionless settlement, close enabled)',
 'C14-15': 'pause matrix signed by every identity for which the un-paused call succeeds (second entitled roles)',
 'C15-14': 'the global fee admin hands its role to a second key and back (pause / unpause signed by whoever holds the role); fee-settings edit as an action',
 'C15-15': 'pause counter of the model saturates instead of overflowing (the harness panicked - machinery exit - where it should have reported the fourth pause)',
 'C16-13': "liquidations with surplus observation accounts for the liquidator; roots F5 / F6 (liquidator holds only the collateral bank, both key orders)",
 'C17-13': 'withdraw amounts at the utilisation boundary and the whole vault; wound-down roots (borrow limit 0 / 1 with debt outstanding and a year of uncollected fees)',
 # round 6 (session 5)
 'C03-16': 'vault swaps in the C03 sweep; an instruction re-issued with a look-alike vault is judged like the instruction itself (C01 caught it as it stood)',
 'C05-16': "drained debt-bank vault probe: the debt bank's liquidity vault holds 0 / 1 / 1000 native units",
 'C05-17': "e-mode maintenance weight 0.98 on the seized collateral against a liability weight of 1.0, group leverage caps raised to 90 / 100",
 'C08-17': '(caught by the sibling check C09) legacy (pre-migration) Pyth bank offered a receiver account at another address whose feed id spells the configured key',
 'C10-16': 'permissionless reward settlement in the side enumeration (C19 and C08 caught it as they stood)',
 'C11-16': 'account transfers (both flavours) inside brackets in the band enumeration; health judged on the account the positions went to',
 'C12-16': "deleverage shape enumeration over two accounts: all lists of length <= 4 of the risk admin's starts, ends, repays and withdrawals (C10 caught it as it stood)",
 'C13-16': "the risk admin's wind-down completion and the token-less flag in the alphabet",
 'C13-17': 'borrow limit 0 (limits-only instruction) in the alphabet: a bank that cannot be borrowed from must still be configured coherently',
 'C14-17': 'user instructions inside a flash-loan bracket of the acting account x bank x state',
 'C15-17': 'daily resets judged by the clock time at which they happen, not by the stored window start',
 'C17-17': 'reduce-only root on a utilised bank with a year of uncollected fees',
 # round 7 (session 5)
 'C19-16': 'budget variant with a legacy position whose reward clock was never stamped (the first touch earns nothing)',
 'C01-17': '(caught by the sibling check C06: the accrual sweep has curves whose rates reach the cap)',
 'C04-16': '(caught by the sibling check C09: confidence just over the maximum in the Switchboard condition matrix)',
 'C04-17': 'Drift gate with a collateral-value cap a hundred times the deposits: the borrow boundary must be the same with and without a cap that does not bite',
 'C06-17': 'bank flag words in the accrual sweep (token-less allowed / completed, frozen + close-enabled + permissionless settlement, rewards on)',
}
BUILT_AFTER = {'C09', 'C10', 'C11', 'C19'}  # checks written after their seeds existed


def table_asbuilt():
    rows = ['| id | level | technique (MANIFEST) | executions judged (quick) | quick wall |', '|---|---|---|---|---|']
    man = json.load(open(f'{ROOT}/MANIFEST.json'))
    tech = {c['property_id']: c for c in man['checks']}
    for i in range(1, 21):
        pid = f'C{i:02d}'
        p = f'{ROOT}/evidence/{pid}.json'
        if not os.path.exists(p):
            continue
        e = json.load(open(p))
        c = e.get('coverage', {})
        n = c.get('transitions') or c.get('evaluations') or c.get('states') or 0
        st = c.get('states')
        what = f"{n:,}" + (f" ({st:,} states)" if st and st != n else '')
        t = tech.get(pid, {}).get('technique', '')
        t = t if len(t) < 170 else t[:167] + '...'
        rows.append(f"| {pid} | {e.get('level','')} | {t} | {what} | {float(e.get('wall_s', 0)):.1f} s |")
    return '\n'.join(rows)


def read_tsv(p):
    if not os.path.exists(p):
        return []
    return list(csv.DictReader(open(p), delimiter='\t'))


def table_seeds():
    res = read_tsv(f'{ROOT}/seeded/RESULTS.tsv')
    by = {}
    for r in res:
        by.setdefault(r['seed'], []).append(r)
    rows = ['| seed | round | change (sub-agent\'s title) | file | caught by (first clause) | needed before it was caught |', '|---|---|---|---|---|---|']
    missed = 0
    for d in sorted(glob.glob(f'{ROOT}/seeded/C*-*')):
        sid = os.path.basename(d)
        try:
            m = json.load(open(f'{d}/meta.json'))
        except Exception:
            m = {}
        title = (m.get('title') or m.get('description') or '')[:110].replace('|', '/')
        files = m.get('files') or []
        f = os.path.basename(files[0]) if files else ''
        caught = '; '.join(f"{r['check']}: {r['first_clause'] or ('exit ' + r['exit'])}" for r in by.get(sid, []) if r['exit'] == '1') or 'NOT CAUGHT'
        need = NEEDED.get(sid, '')
        if not need and sid.split('-')[0] in BUILT_AFTER and not os.path.exists(f'{d}/round'):
            need = '(check written afterwards)'
        if sid in NEEDED:
            missed += 1
        rnd = open(f'{d}/round').read().strip().split()[-1] if os.path.exists(f'{d}/round') else '1'
        rows.append(f"| {sid} | {rnd} | {title} | {f} | {caught} | {need} |")
    rows.append('')
    rows.append(f"{missed} of the {len(rows) - 3} seeded changes needed a strengthening of an existing check; the rest were caught as the check stood or by a check written afterwards.")
    return '\n'.join(rows)


def table_mutants():
    res = read_tsv(f'{ROOT}/mutants/RESULTS.tsv')
    rows = ['| mutant | check | result | first clause |', '|---|---|---|---|']
    k = 0
    for r in res:
        ok = r['exit'] == '1'
        k += ok
        rows.append(f"| {r['mutant']} | {r['check']} | {'caught' if ok else ('machinery failure' if r['exit']=='2' else 'SURVIVES')} | {r['first_clause']} |")
    rows.append('')
    rows.append(f"{k} of {len(res)} caught.")
    return '\n'.join(rows)


def main():
    s = open(f'{ROOT}/DESIGN.md').read()
    for name, fn in [('asbuilt', table_asbuilt), ('seeds', table_seeds), ('mutants', table_mutants)]:
        s = re.sub(rf'(<!-- BEGIN:{name} -->\n).*?(<!-- END:{name} -->)', lambda m: m.group(1) + fn() + '\n' + m.group(2), s, flags=re.S)
    open(f'{ROOT}/DESIGN.md', 'w').write(s)


if __name__ == '__main__':
    main()
