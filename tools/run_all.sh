#!/bin/bash
# usage: tools/run_all.sh [quick|thorough] — runs every claimed check against /repo, one line each
TIER=${1:-quick}
cd /verif
rc_all=0
for ID in $(python3 -c "import json;print(' '.join(p['property_id'] for p in json.load(open('/verif/MANIFEST.json'))['checks']))"); do
  out=$(./check $ID --tier $TIER 2>&1); rc=$?
  echo "$ID exit=$rc $(echo "$out" | grep -E '^(OK|VIOLATION|MACHINERY)' | head -1 | cut -c1-150) known=$(echo "$out" | grep -c '^KNOWN-FINDING')"
  [ $rc -ne 0 ] && rc_all=1
done
exit $rc_all
