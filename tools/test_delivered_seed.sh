#!/bin/bash
# usage: tools/test_delivered_seed.sh <seed-id> <check> [<check>...] - applies a sub-agent delivery (/tmp/rN/<P>/out/<id>/patch.diff) to /repo in place,
# runs the named quick checks and reverts. NOTE: this rewrites evidence/<ID>.json with the result on the CHANGED tree; re-run the
# quick tier on the clean tree before committing evidence.
# usage: t6.sh <seed-id> <check> [<check>...]
id=$1; shift; P=${id%%-*}
cd /verif
[ -n "$(git -C /repo status --porcelain)" ] && { echo "repo dirty"; exit 2; }
git -C /repo apply /tmp/rN/$P/out/$id/patch.diff || exit 2
for c in "$@"; do
  out=$(./check $c 2>&1); rc=$?
  echo "== $id $c exit=$rc"; echo "$out" | grep -E "^(MACHINERY|  clause)" | cut -c1-330 | head -3
done
git -C /repo checkout -- .
