#!/usr/bin/env python3
"""merge_results.py <new.tsv> <RESULTS.tsv>: rows of the seeds present in <new> replace those seeds' rows in RESULTS (file-locked)."""
import sys, fcntl, re
new, dst = sys.argv[1], sys.argv[2]
with open(dst + '.lock', 'w') as lk:
    fcntl.flock(lk, fcntl.LOCK_EX)
    rows = [l.rstrip('\n').split('\t') for l in open(new)][1:]
    seeds = {r[0] for r in rows}
    try: old = [l.rstrip('\n').split('\t') for l in open(dst)][1:]
    except FileNotFoundError: old = []
    allr = [r for r in old if r[0] not in seeds] + rows
    def k(r):
        m = re.match(r'C(\d+)-(\d+)', r[0]); return (int(m.group(1)), int(m.group(2)), r[1])
    allr.sort(key=k)
    with open(dst, 'w') as f:
        f.write('seed\tcheck\texit\tfirst_clause\n')
        for r in allr: f.write('\t'.join(r) + '\n')
