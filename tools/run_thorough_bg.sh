#!/bin/bash
# usage: tools/run_thorough_bg.sh [IDs...] — builds the harness once, copies the binary aside and runs the thorough
# tier of every (or the named) claimed check from that copy, so that later edits of the harness do not interfere.
# One line per check in /root/scratch/logs/thorough.log. (The registered commands are ./check <ID> --tier thorough.)
cd /verif/harness && CARGO_NET_OFFLINE=true cargo build --release 2>/dev/null || exit 2
BIN=/root/scratch/check-thorough-$$; cp target/release/check $BIN
IDS="$@"; [ -z "$IDS" ] && IDS=$(python3 -c "import json;print(' '.join(p['property_id'] for p in json.load(open('/verif/MANIFEST.json'))['checks']))")
LOG=${LOG:-/root/scratch/logs/thorough.log}; : > $LOG
for ID in $IDS; do
  t0=$(date +%s); out=$(VERIF_ROOT=/verif $BIN $ID --tier thorough 2>&1); rc=$?
  echo "$ID exit=$rc $(( $(date +%s) - t0 ))s $(echo "$out" | grep -E '^(OK|VIOLATION|MACHINERY|\[harness)' | head -2 | tr '\n' ' ' | cut -c1-220) known=$(echo "$out" | grep -c '^KNOWN-FINDING')" >> $LOG
done
rm -f $BIN
